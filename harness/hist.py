"""History-level harness: drives real algorithm objects by ask/tell, records every draw and oracle answer,
and produces per-generation model checks (ask = C01 pipeline, tell = replacement / survival step, optimum)."""
import numpy as np, copy
from harness.core import *
from harness import gens, surv
from harness.c01 import vcfg_term, VARS
from harness.c09 import ranks_term
from harness.c02 import sind_term
from pymoo.core.problem import Problem


class RandProblem(Problem):
    """deterministic random problem; rounding creates ties in objectives and violations"""

    def __init__(self, n_var, n_obj, n_ieq, xl, xu, A, B, shift, digits, fscale=1.0, gscale=1.0, n_eq=0, Bh=None, shift_h=0.0, oscales=None):
        self.fscale = fscale; self.gscale = gscale
        self.oscales = np.array(oscales, dtype=float) if oscales is not None else None       # per-objective units (powers of two)
        self.oshift = None
        super().__init__(n_var=n_var, n_obj=n_obj, n_ieq_constr=n_ieq, n_eq_constr=n_eq, xl=np.array(xl, dtype=float), xu=np.array(xu, dtype=float))
        self.Bh = np.array(Bh if Bh is not None else np.zeros((max(n_eq, 1), n_var)), dtype=float); self.shift_h = shift_h
        self.A = np.array(A, dtype=float); self.B = np.array(B, dtype=float); self.shift = shift; self.digits = digits

    def _evaluate(self, X, out, *args, **kwargs):
        w = np.where(self.xu > self.xl, self.xu - self.xl, 1.0)
        Z = (X - self.xl) / w
        if self.n_obj > 1:
            F = (Z @ self.A.T) ** 2
        else:
            F = ((Z - 0.3) ** 2).sum(axis=1, keepdims=True)
        out["F"] = np.round(F, self.digits) * self.fscale
        if self.oscales is not None:
            out["F"] = out["F"] * self.oscales
        if self.oshift is not None:
            out["F"] = out["F"] - self.oshift
        if getattr(self, "pole", None) is not None:
            # a region of the box in which one objective is +inf (a pole, a failed simulation reported as inf): such points are still
            # comparable in the other objectives
            j, k, t = self.pole
            F = np.array(out["F"], dtype=float); F[Z[:, k] > t, j] = np.inf; out["F"] = F
        if self.n_ieq_constr > 0:
            out["G"] = np.round((Z @ self.B.T)[:, :self.n_ieq_constr] + self.shift, self.digits) * self.gscale
        if self.n_eq_constr > 0:
            out["H"] = np.round((Z @ self.Bh.T)[:, :self.n_eq_constr] + self.shift_h, min(self.digits, 1)) * self.gscale


SELS = ["rand", "best", "current-to-best", "current-to-rand", "rand-to-best", "ranked"]


def gen_hist_case(rng, algs=("DE", "NSDE", "GDE3", "GDE3MNN", "GDE32NN", "GDE3P", "NSDER"), n_gen=4):
    alg = rng.choice(list(algs))
    single = alg == "DE"
    n_var = rng.choice([1, 2, 3, 4]); n_obj = 1 if single else (3 if alg == "NSDER" else rng.choice([2, 2, 3]))
    if alg == "GDE3P": n_obj = 2
    if alg in ("GDE3", "NSDE", "GDE3MNN", "GDE32NN") and rng.random() < 0.12:
        n_obj = 1          # the multi-objective algorithms on a single-objective problem (plateaus of the rounded objective give exact ties)
    n_ieq = rng.choice([0, 0, 1, 2])
    shift = rng.choice([-5.0, 0.0, 0.5, 3.0]) if n_ieq else 0.0
    sel = rng.choice(SELS); y = rng.choice([1, 1, 2]); cx = rng.choice(["bin", "exp"])
    nd = y + (1 if "-to-" in sel else 0); n_par = 1 + 2 * nd
    ps = n_par + rng.choice([1, 2, 4, 7])
    if alg == "NSDER": ps = max(ps, 10)
    xl = [-rng.random() * rng.choice([1e-3, 1, 100]) for _ in range(n_var)]
    xu = [l + rng.random() * rng.choice([0.0, 1e-9, 1, 50]) for l in xl]
    cfg = {"alg": alg, "n_var": n_var, "n_obj": n_obj, "n_ieq": n_ieq, "shift": shift, "xl": enc(np.array(xl)), "xu": enc(np.array(xu)),
           "A": [[rng.gauss(0, 1) for _ in range(n_var)] for _ in range(n_obj)],
           "B": [[rng.gauss(0, 1) for _ in range(n_var)] for _ in range(max(n_ieq, 1))],
           "digits": rng.choice([1, 2, 2, 6]),
           "sel": sel, "y": y, "cx": cx, "CR": float(rng.choice([0.0, 0.1, 0.5, 0.9, 1.0])).hex(),
           "F": rng.choice([0.5, 2.0, (0.0, 1.0), (0.5, 2.5)] + ([] if single else [None])), "gamma": rng.choice([None, 1e-4, 0.5, 1.9, 0.0]),
           "repair": rng.choice(["bounce-back", "midway", "rand-init", "to-bounds"]),
           "surv": rng.choice(["RankAndCrowding", "ConstrRankAndCrowding"]), "cf": rng.choice(["cd", "ce", "mnn", "2nn", "pcd"]),
           "pop_size": ps, "n_gen": n_gen, "seed": rng.randrange(10 ** 6)}
    if cfg["cf"] == "pcd" and n_obj >= 3:
        cfg["cf"] = "cd"
    if n_ieq and rng.random() < 0.3:      # objective magnitudes that dwarf the violations
        cfg["fscale"] = rng.choice([1e9, 1e18]); cfg["gscale"] = rng.choice([1e-9, 1.0]); cfg["shift"] = rng.choice([0.0, 0.5]); cfg["digits"] = 2
    if n_ieq and rng.random() < 0.35:     # feasible region is small: typically nothing feasible at first, feasible members appear during the run
        zs = [[rng.random() for _ in range(n_var)] for _ in range(300)]
        g = sorted(max(sum(z[k] * cfg["B"][c][k] for k in range(n_var)) for c in range(n_ieq)) for z in zs)
        cfg["shift"] = -g[int(len(g) * rng.choice([0.03, 0.08, 0.15]))]
        cfg["n_gen"] = max(n_gen, 6); cfg["late_feasible"] = True
        cfg.pop("fscale", None); cfg.pop("gscale", None)
        if rng.random() < 0.4:
            cfg["sel"] = "ranked"
    if isinstance(cfg["F"], tuple) and rng.random() < 0.4:
        cfg["F_array"] = True
    if rng.random() < (0.25 if n_ieq == 0 else 0.15):
        # equality constraints (alone or next to the inequalities); coarse rounding makes some members satisfy them exactly
        cfg["n_eq"] = 1; cfg["Bh"] = [[rng.gauss(0, 1) for _ in range(n_var)]]; cfg["shift_h"] = rng.choice([0.0, -0.5, 0.2])
    if not single and rng.random() < 0.2:
        # objectives in very different units (a sum of the objectives absorbs the small one); coarse rounding keeps ties in the large one
        ks = [rng.choice([70, 64, 0, -60]) for _ in range(n_obj)]
        if len(set(ks)) == 1: ks[0] = 70 if ks[0] != 70 else 0
        cfg["oscales"] = [2.0 ** k for k in ks]; cfg["digits"] = rng.choice([1, 1, 2])
    if rng.random() < 0.15 and "oscales" not in cfg:
        cfg["oshift"] = [rng.choice([0.0, 64.0, 64.0, 1.5]) for _ in range(n_obj)]       # F - 64 is negative on the whole box for these problems
    if alg in ("NSDE", "GDE3") and rng.random() < 0.3:
        cfg["surv"] = "default"; cfg["cf"] = "cd"      # no survival argument: the algorithm's own default operator
    if alg not in ("GA", "EA") and rng.random() < 0.3:
        cfg["prime"] = True                             # the process has already stepped a default-constructed algorithm of this class on another problem
    # (only with the NumPy metrics cd and ce: in the pruning metrics distances between points with infinite coordinates are NaN, the compiled
    #  kernels' treatment of NaN is outside the model and C13 does not quantify over infinite objective values)
    if n_obj >= 2 and rng.random() < 0.15 and alg in ("NSDE", "GDE3", "GA", "EA") and cfg["cf"] in ("cd", "ce"):
        cfg["pole"] = [rng.randrange(n_obj), rng.randrange(n_var), rng.choice([0.5, 0.7, 0.85])]     # objective j is +inf where variable k is in the upper part of its range
    if alg not in ("GA", "EA") and rng.random() < 0.12:
        cfg["no_adv_init"] = True                       # the constructor flag advance_after_initial_infill=False
    if alg in ("GA", "EA"):
        cfg["n_off"] = rng.choice([ps, max(2, ps // 2), 3])
        cfg["n_init"] = rng.choice([ps, ps, max(4, ps - 3), max(4, ps // 2)])
        cfg["ga_ops"] = rng.choice(["sbx-pm", "dex"])
        cfg["adv_init"] = rng.random() < 0.4
    return cfg


# Scenarios that need several independent features at once (found by seeded changes that the few dozen histories of a quick run met only
# by luck).  A share of every history check's cases is drawn from them in turn, by rejection on the ordinary generator, so that all other
# features keep their distribution.
def feasible_share(c, n=40):
    """share of feasible points among n uniform points of the box (deterministic in the case)"""
    r = np.random.default_rng(c["seed"])
    pr = make_problem(c)
    X = pr.xl + r.random((n, c["n_var"])) * (pr.xu - pr.xl)
    out = pr.evaluate(X, return_as_dictionary=True)
    cv = np.zeros(n)
    if out.get("G") is not None and c["n_ieq"]:
        cv = cv + np.maximum(out["G"], 0).sum(axis=1)
    if out.get("H") is not None and c.get("n_eq"):
        cv = cv + np.abs(out["H"]).sum(axis=1)
    return float((cv <= 0).mean())


SCENARIOS = [
    # the algorithm's own default survival object, already used on an UNCONSTRAINED problem in this process, now on a constrained one
    ("default-survival-primed-constrained", lambda c: c["surv"] == "default" and c.get("prime") and c["n_ieq"] > 0 and not c.get("late_feasible")
     and 0.2 <= feasible_share(c) <= 0.8),          # feasible and infeasible candidates compete in every generation
    # small feasible region: feasible members appear one at a time during the run, with the constraint-ranking survival
    # (1-6 % of the box feasible: typically one feasible candidate among parents and trials at some generation)
    ("constr-survival-late-feasible", lambda c: c["surv"] == "ConstrRankAndCrowding" and c.get("late_feasible") and c["alg"] in ("NSDE", "GDE3", "GDE3MNN", "GDE32NN", "GDE3P")
     and 0.0 < feasible_share(c, 200) <= 0.06),
    # single-objective DE on a coarse plateau with a minimal population: generations in which no trial replaces its parent
    # (every variable has a proper range and most coordinates cross over, so the rejected trials differ from their parents)
    ("de-stagnant", lambda c: c["alg"] == "DE" and c["digits"] == 1 and c["pop_size"] <= 1 + 2 * (c["y"] + (1 if "-to-" in c["sel"] else 0)) + 2
     and float.fromhex(c["CR"]) >= 0.5 and bool(np.all(decarr(c["xu"]) - decarr(c["xl"]) > 1e-3))),
    ("default-survival-late-feasible", lambda c: c["surv"] == "default" and c.get("late_feasible")),
    # constraint-ranking survival that has to cut inside the infeasible part: two constraints (fronts of several members in violation
    # space), few feasible points
    ("constr-survival-two-constraints-mostly-infeasible", lambda c: c["surv"] == "ConstrRankAndCrowding" and c["n_ieq"] == 2 and c["alg"] in ("NSDE", "GDE3", "GDE3MNN", "GDE32NN", "GDE3P")
     and not c.get("late_feasible") and c["pop_size"] >= 8 and feasible_share(c) <= 0.3),
    # the dither range handed over as one float array that every construction in the process shares
    ("shared-F-array", lambda c: bool(c.get("F_array"))),
    # an unusual constructor flag that the DE algorithms accept (the initial population is ranked all the same), feasible members from the start
    # an unconstrained (mu+lambda) run long enough for the whole population to become mutually non-dominated
    ("nsde-all-nondominated", lambda c: c["alg"] in ("NSDE", "NSDER") and c["n_ieq"] == 0 and not c.get("n_eq") and c["n_obj"] >= 2 and c["digits"] >= 2
     and (c["pop_size"] <= 9 or c["alg"] == "NSDER")),
    # an objective that is +inf on part of the box
    ("infinite-objective-region", lambda c: c.get("pole") is not None and decarr(c["xu"])[c["pole"][1]] - decarr(c["xl"])[c["pole"][1]] > 1e-3),
    ("no-advance-after-initial-infill", lambda c: bool(c.get("no_adv_init")) and (c["n_ieq"] == 0 or feasible_share(c) >= 0.3)),
]


def gen_scenario_case(rng, k, algs, n_gen=4):
    """the k-th scenario (cyclically) that these algorithms can meet; None if none can"""
    for j in range(len(SCENARIOS)):
        name, pred = SCENARIOS[(k + j) % len(SCENARIOS)]
        for _ in range(3000):
            c = gen_hist_case(rng, algs=algs, n_gen=n_gen)
            if pred(c):
                c["scenario"] = name
                c["fresh_process"] = True        # state carried between calls is part of the scenario, not of the batch it sits in
                if name in ("de-stagnant", "constr-survival-late-feasible", "nsde-all-nondominated"):
                    c["n_gen"] = max(c["n_gen"], 8)
                return c
    return None


def make_problem(cfg):
    pr = RandProblem(cfg["n_var"], cfg["n_obj"], cfg["n_ieq"], decarr(cfg["xl"]), decarr(cfg["xu"]), cfg["A"], cfg["B"], cfg["shift"], cfg["digits"],
                       cfg.get("fscale", 1.0), cfg.get("gscale", 1.0), n_eq=cfg.get("n_eq", 0), Bh=cfg.get("Bh"), shift_h=cfg.get("shift_h", 0.0),
                       oscales=cfg.get("oscales"))
    if cfg.get("oshift") is not None:
        pr.oshift = np.array(cfg["oshift"], dtype=float)        # objectives that are negative for every point of the box (e.g. -f of a maximisation)
    if cfg.get("pole") is not None:
        pr.pole = (int(cfg["pole"][0]) % cfg["n_obj"], int(cfg["pole"][1]) % cfg["n_var"], float(cfg["pole"][2]))     # (shapes may have been edited after generation)
    return pr


_SHARED_F = {}
_SHARED_POP = {}


def make_algorithm(cfg):
    from pymoode.algorithms import DE, GDE3, NSDE, NSDER, GDE3MNN, GDE32NN, GDE3P
    from pymoode.survival import RankAndCrowding, ConstrRankAndCrowding
    from pymoo.util.ref_dirs import get_reference_directions
    F = tuple(cfg["F"]) if isinstance(cfg["F"], list) else cfg["F"]
    if cfg.get("F_array") and isinstance(F, tuple):
        # the user keeps the range in one float array and passes that same object to every algorithm they construct
        F = _SHARED_F.setdefault(F, np.array(F, dtype=float))
    kw = dict(pop_size=cfg["pop_size"], variant="DE/%s/%d/%s" % (cfg["sel"], cfg["y"], cfg["cx"]), CR=float.fromhex(cfg["CR"]), F=F, gamma=cfg["gamma"])
    a = cfg["alg"]
    if cfg.get("warm_pop") and a not in ("GA", "EA"):
        # warm start: the user hands over an evaluated Population object and keeps it; every construction for this configuration in the
        # process gets that same object (pymoo uses it by reference)
        key = (cfg["seed"], cfg["pop_size"], cfg["n_var"], a)
        if key not in _SHARED_POP:
            from pymoo.core.population import Population
            from pymoo.core.evaluator import Evaluator
            rs = np.random.RandomState(cfg["seed"] + 3)
            xl, xu = decarr(cfg["xl"]), decarr(cfg["xu"])
            p0 = Population.new("X", xl + rs.random_sample((cfg["pop_size"], cfg["n_var"])) * (xu - xl))
            Evaluator().eval(make_problem(cfg), p0)
            _SHARED_POP[key] = p0
        kw["sampling"] = _SHARED_POP[key]
    if cfg.get("no_adv_init") and a not in ("GA", "EA"):
        kw["advance_after_initial_infill"] = False        # accepted by every DE algorithm; the initial population is ranked all the same
    if a in ("GA", "EA"):
        from pymoode.algorithms.base.genetic import GeneticAlgorithm
        from pymoo.operators.crossover.sbx import SBX
        from pymoo.operators.mutation.pm import PM
        from pymoo.operators.selection.rnd import RandomSelection
        from pymoode.operators.dex import DEX
        rs = np.random.RandomState(cfg["seed"])
        xl, xu = decarr(cfg["xl"]), decarr(cfg["xu"])
        X0 = xl + rs.random_sample((cfg["n_init"], cfg["n_var"])) * (xu - xl)
        sv = (ConstrRankAndCrowding if cfg["surv"] == "ConstrRankAndCrowding" else RankAndCrowding)(crowding_func=cfg["cf"])
        cross = SBX() if cfg["ga_ops"] == "sbx-pm" else DEX(variant=cfg["cx"], CR=float.fromhex(cfg["CR"]))
        return GeneticAlgorithm(pop_size=cfg["pop_size"], sampling=X0, selection=RandomSelection(), crossover=cross, mutation=PM(),
                                survival=sv, n_offsprings=cfg["n_off"], eliminate_duplicates=True, advance_after_initial_infill=bool(cfg.get("adv_init", False)))
    if a == "DE":
        return DE(de_repair=cfg["repair"], **kw)
    if a == "NSDER":
        return NSDER(get_reference_directions("das-dennis", 3, n_partitions=3), de_repair=cfg["repair"], **kw)
    if a in ("GDE3MNN", "GDE32NN", "GDE3P"):
        return {"GDE3MNN": GDE3MNN, "GDE32NN": GDE32NN, "GDE3P": GDE3P}[a](de_repair=cfg["repair"], **kw)
    if cfg["surv"] == "default":
        return (NSDE if a == "NSDE" else GDE3)(de_repair=cfg["repair"], **kw)
    sv = (ConstrRankAndCrowding if cfg["surv"] == "ConstrRankAndCrowding" else RankAndCrowding)(crowding_func=cfg["cf"])
    return (NSDE if a == "NSDE" else GDE3)(de_repair=cfg["repair"], survival=sv, **kw)


def prime_run(cfg):
    """earlier in the same process a default-constructed algorithm of the same class was stepped (not copied) on another problem:
    unconstrained if this case has constraints, constrained otherwise"""
    c2 = dict(cfg); c2["surv"] = "default"; c2["cf"] = "cd"; c2.pop("n_eq", None); c2.pop("F_array", None)
    if cfg["n_ieq"] or cfg.get("n_eq"):
        c2["n_ieq"] = 0
    else:
        c2["n_ieq"] = 1; c2["shift"] = 0.0
    prob = make_problem(c2); alg = make_algorithm(c2)
    alg.setup(prob, seed=cfg["seed"] + 1, termination=("n_gen", 4), verbose=False)
    for _ in range(3):
        if not alg.has_next():
            break
        alg.next()


class Registry:
    def __init__(self):
        self.ids = {}; self.objs = []

    def gid(self, ind):
        k = id(ind)
        if k not in self.ids:
            self.ids[k] = len(self.objs); self.objs.append(ind)
        return self.ids[k]


def ind_data(ind, n_ieq, n_eq=0):
    G = np.asarray(ind.G, dtype=float).ravel() if n_ieq else np.zeros(0)
    H = np.asarray(ind.H, dtype=float).ravel() if n_eq else np.zeros(0)
    from pymoo.core.individual import calc_cv
    cv_calc = float(np.asarray(calc_cv(G=G if n_ieq else None, H=H if n_eq else None)).ravel()[0]) if (n_ieq or n_eq) else 0.0
    return {"X": enc(np.asarray(ind.X, dtype=float)), "F": enc(np.asarray(ind.F, dtype=float)), "CV": float(ind.CV[0]).hex(), "feas": bool(ind.FEAS[0]),
            "CV_calc": float(cv_calc).hex(),          # total violation recomputed from the evaluated G and H (the stored CV may be stale)
            "G": enc(G), "H": enc(H), "C": enc(np.concatenate((np.maximum(G, 0), np.absolute(H))))}


def run_history(cfg, hook=None):
    """hook(alg, gen) may interfere after each generation (used by C17/C18)"""
    if cfg.get("prime"):
        prime_run(cfg)
    prob = make_problem(cfg); alg = make_algorithm(cfg)
    alg.setup(prob, seed=cfg["seed"], termination=("n_gen", cfg["n_gen"] + 1), verbose=False)
    reg = Registry(); gens_out = []; data = {}
    surv_op = alg.survival
    g = 0
    while alg.has_next() and g <= cfg["n_gen"]:
        pre = [] if alg.pop is None or not alg.is_initialized else [reg.gid(i) for i in alg.pop]
        pre_rank = [] if not pre else [reg.objs[i].get("rank") for i in pre]
        ne0 = alg.evaluator.n_eval
        with Recorder() as rec:
            infills = alg.ask()
        if infills is None:      # mating could not produce any (unique) offspring: pymoo terminates the run
            break
        inf_ids = [reg.gid(i) for i in infills]
        inf_X = infills.get("X").copy()
        alg.evaluator.eval(prob, infills)
        n_eval_gen = alg.evaluator.n_eval - ne0
        for i in pre + inf_ids:
            if i not in data:
                data[i] = ind_data(reg.objs[i], cfg["n_ieq"], cfg.get("n_eq", 0))
        cands = []
        rank_before = {i: reg.objs[i].get("rank") for i in pre + inf_ids}
        rank_before.update(dict(zip(pre, pre_rank)))          # members: as left by the previous generation (mating must not write attributes)
        with surv.OracleRec(surv_op) as orec:
            orig_do = type(surv_op).do
            holder = {}

            def rec_do(self_, problem, pop, *a, **k):
                holder.setdefault("cands", [reg.gid(i) for i in pop])
                return orig_do(self_, problem, pop, *a, **k)
            type(surv_op).do = rec_do
            try:
                with Recorder() as rec2:
                    alg.tell(infills=infills)
            finally:
                type(surv_op).do = orig_do
        post = [reg.gid(i) for i in alg.pop]
        for i in post:
            if i not in data:
                data[i] = ind_data(reg.objs[i], cfg["n_ieq"], cfg.get("n_eq", 0))
        rec_g = {"gen": g, "pre": pre, "pre_rank": pre_rank, "ask_events": enc_events(rec.events), "infills": inf_ids, "infill_X": enc(inf_X),
                 "n_eval_gen": int(n_eval_gen), "cands": holder.get("cands"), "post": post, "n_survive": None,
                 "post_rank": [reg.objs[i].get("rank") for i in post],
                 "rank_before": [rank_before[i] for i in pre + inf_ids], "rank_after": [reg.objs[i].get("rank") for i in pre + inf_ids],
                 "crowd_after": [None if reg.objs[i].get("crowding") is None else float(reg.objs[i].get("crowding")).hex() for i in pre + inf_ids],
                 "opt": [reg.gid(i) for i in alg.opt] if alg.opt is not None else [],
                 "oevents": [[e[0]] + [x if not isinstance(x, list) or not x or not isinstance(x[0], float) else [float(v).hex() for v in x] for x in e[1:3]] for e in orec.events],
                 "tell_draws": len(rec2.events)}
        # provenance: stored values = problem evaluated at the stored decision vector
        Xp = np.array([reg.objs[i].X for i in post], dtype=float)
        out = prob.evaluate(Xp, return_as_dictionary=True)
        Fp = np.array([reg.objs[i].F for i in post], dtype=float)
        ok = bool(np.array_equal(out["F"], Fp))
        if cfg["n_ieq"]:
            ok = ok and bool(np.array_equal(out["G"], np.array([reg.objs[i].G for i in post], dtype=float)))
        if cfg.get("n_eq"):
            ok = ok and bool(np.array_equal(out["H"], np.array([reg.objs[i].H for i in post], dtype=float)))
        rec_g["provenance"] = ok
        rec_g["stored_same"] = all(data[i] == ind_data(reg.objs[i], cfg["n_ieq"], cfg.get("n_eq", 0)) for i in pre + inf_ids)
        gens_out.append(rec_g)
        if hook is not None:
            alg = hook(alg, g) or alg
            surv_op = alg.survival
            reg2 = {}
        g += 1
    return {"gens": gens_out, "data": {str(k): v for k, v in data.items()}, "constr": bool(prob.has_constraints()), "pop_size": cfg["pop_size"]}


# ---------------------------------------------------------------------------------------------
# Coq terms
# ---------------------------------------------------------------------------------------------

def mind_of(obs, i):
    d = obs["data"][str(i)]
    F = dec(d["F"]); C = dec(d["C"])
    return surv.mind_term(i, F, float.fromhex(d["CV"]), d["feas"], C if isinstance(C, list) else [C])


def sind_of(obs, i):
    d = obs["data"][str(i)]
    return sind_term(i, dec(d["X"]), dec(d["F"])[0], float.fromhex(d["CV"]), d["feas"])


def minds(obs, ids):
    return "[" + ";\n     ".join(mind_of(obs, i) for i in ids) + "]"


def ask_term(cfg, obs, g):
    """the mating of generation g (g >= 1) reproduces the infill decision vectors bit for bit"""
    G = obs["gens"][g]
    X = [dec(obs["data"][str(i)]["X"]) for i in G["pre"]]
    case = {"sel": cfg["sel"], "y": cfg["y"], "cx": cfg["cx"], "CR": cfg["CR"], "F": cfg["F"], "gamma": cfg["gamma"], "repair": cfg["repair"]}
    return ("match variant_do (N:=Fn) %s %s %s (Some (%s, %s)) %s with\n  | Ok (U, rest) => no_events rest && fmat_same U %s\n  | Err _ => false end" % (
        vcfg_term(case), cfmat(np.array(X, dtype=float)), ranks_term(G["pre_rank"]), cfl(decarr(cfg["xl"])), cfl(decarr(cfg["xu"])),
        cevents(dec_events(G["ask_events"])), cfmat(decarr(G["infill_X"], 2))))


def oranks(l):
    return "[" + "; ".join("None" if r is None else "Some %d" % r for r in l) + "]"


def tell_term(cfg, obs, g):
    G = obs["gens"][g]; constr = cbool(obs["constr"]); n = obs["pop_size"]
    alg = cfg["alg"]
    if alg == "NSDER":
        return None
    if alg in ("GA", "EA") and g == 0:
        if not cfg.get("adv_init"):
            return "nlist_same %s %s" % (cnl(G["post"]), cnl(G["infills"]))
        n = len(G["infills"])          # advance_after_initial_infill=True: survival.do(problem, infills, n_survive=len(infills))
    if alg == "DE":
        if g == 0:
            return "nlist_same (map (s_id (N:=Fn)) (fitness_sort (N:=Fn) [%s])) %s" % (";\n ".join(sind_of(obs, i) for i in G["infills"]), cnl(G["post"]))
        return "nlist_same (map (s_id (N:=Fn)) (de_step (N:=Fn) %s [%s] [%s])) %s && nlist_same %s (seq 0 %d)" % (
            constr, ";\n ".join(sind_of(obs, i) for i in G["pre"]), ";\n ".join(sind_of(obs, i) for i in G["infills"]), cnl(G["post"]), cnl(G["post_rank"]), len(G["post"]))
    sk = "SCRnC" if (alg in ("NSDE", "GDE3", "GA", "EA") and cfg["surv"] == "ConstrRankAndCrowding") else "SRnC"
    E = surv.oevents_term(G["oevents"])
    cand = G["pre"] + G["infills"]
    pos = {i: k for k, i in enumerate(cand)}
    exp_idx = cnl([pos[i] for i in G["post"]])
    crowd = cfl([float("nan") if c is None else float.fromhex(c) for c in G["crowd_after"]])
    check = "no_more rest && nlist_same s %s && olist_same (apply_rank_writes %s a) %s && crowding_agree a %s" % (
        exp_idx, oranks(G["rank_before"]), oranks(G["rank_after"]), crowd)
    if g == 0:
        return "match survive (N:=Fn) %s %s %s %d %s with\n  | Ok ((s, a), rest) => %s\n  | Err _ => false end" % (sk, constr, minds(obs, G["infills"]), n, E, check)
    if alg == "NSDE" and G["cands"] is not None and [pos.get(i) for i in G["cands"]] != list(range(len(cand))):
        return "false"          # (mu + lambda): the survival operator must be handed population ++ offspring, the model's merge
    if alg in ("NSDE", "GA", "EA"):
        return "match mu_plus_lambda (N:=Fn) %s %s %s %s %d %s with\n  | Ok ((s, a), rest) => %s\n  | Err _ => false end" % (
            sk, constr, minds(obs, G["pre"]), minds(obs, G["infills"]), n, E, check)
    if G["cands"] is None or any(i not in pos for i in G["cands"]):
        return "false"          # the survival operator's do() was not called with members of (population + offspring): nothing the model could agree with
    cands_exp = cnl([pos[i] for i in G["cands"]])
    return ("nlist_same (gde3_candidates (N:=Fn) %s %s) %s &&\n  match gde3_step (N:=Fn) %s %s %s %s %d %s with\n  | Ok ((s, a), rest) => %s\n  | Err _ => false end" % (
        minds(obs, G["pre"]), minds(obs, G["infills"]), cands_exp, sk, constr, minds(obs, G["pre"]), minds(obs, G["infills"]), n, E, check))


def opt_term(cfg, obs, g):
    G = obs["gens"][g]
    if cfg["alg"] == "NSDER":
        return None
    pos = {i: k for k, i in enumerate(G["post"])}
    if any(i not in pos for i in G["opt"]):
        return "false"
    return "nlist_same (set_optimum (N:=Fn) %s %s) %s" % (minds(obs, G["post"]), oranks(G["post_rank"]), cnl([pos[i] for i in G["opt"]]))


IMPORTS = ("From PV Require Import Model.Repair Model.Mutate Model.Cross Model.Select Model.Variant Model.Replace "
           "Model.Dominance Model.RankCrowd Model.Algo.")


def history_term(cfg, obs, parts=("ask", "tell", "opt")):
    terms = []
    for g in range(len(obs["gens"])):
        if "ask" in parts and g >= 1 and cfg["alg"] not in ("GA", "EA"):
            terms.append(ask_term(cfg, obs, g))
        if "tell" in parts:
            terms.append(tell_term(cfg, obs, g))
        if "opt" in parts and cfg["alg"] not in ("GA", "EA"):
            terms.append(opt_term(cfg, obs, g))
    terms = ["(%s)" % t for t in terms if t is not None]
    return " &&\n  ".join(terms) if terms else None


# ---------------------------------------------------------------------------------------------
# independent oracles on histories
# ---------------------------------------------------------------------------------------------

def _d(obs, i):
    d = obs["data"][str(i)]
    return np.array(dec(d["F"]), dtype=float), float.fromhex(d["CV"]), d["feas"], np.array(dec(d["X"]), dtype=float)


def pdom(a, b):
    return bool(np.all(a <= b) and np.any(a < b))


def stale_cv(obs):
    """the stored total violation / feasibility flag of every individual is the one of its evaluated constraint values"""
    for i, d in obs["data"].items():
        if "CV_calc" not in d:
            continue
        cs, cc = float.fromhex(d["CV"]), float.fromhex(d["CV_calc"])
        if cs != cc or bool(d["feas"]) != (cc <= 0):
            return "stored constraint violation %r (feasible=%s) of individual %s differs from the violation %r of its evaluated constraints" % (cs, d["feas"], i, cc)
    return None


def oracle_c05(cfg, obs):
    m = stale_cv(obs)
    if m:
        return "C05-stale-cv: " + m
    if not cfg["alg"].startswith("GDE3"):
        return None
    n = obs["pop_size"]
    for G in obs["gens"][1:]:
        cand = set(G["cands"] or [])
        for k in range(n):
            p, o = G["pre"][k], G["infills"][k]
            Fp, cvp, _, _ = _d(obs, p); Fo, cvo, _, _ = _d(obs, o)
            def cdom(Fa, ca, Fb, cb): return ca < cb or (ca == cb and pdom(Fa, Fb))
            exp = {p} if cdom(Fp, cvp, Fo, cvo) else ({o} if cdom(Fo, cvo, Fp, cvp) else {p, o})
            got = {i for i in (p, o) if i in cand}
            if exp != got:
                return "C05-candidates: generation %d slot %d: candidates %s, rule gives %s (parent F=%s CV=%r, offspring F=%s CV=%r)" % (
                    G["gen"], k, sorted(got), sorted(exp), Fp.tolist(), cvp, Fo.tolist(), cvo)
            if cdom(Fp, cvp, Fo, cvo) and o in G["post"]:
                return "C05-dominated-offspring: generation %d slot %d: constraint-dominated offspring entered the population" % (G["gen"], k)
            if cdom(Fo, cvo, Fp, cvp) and p in G["post"]:
                return "C05-dominated-parent: generation %d slot %d: parent dominated by its offspring stayed" % (G["gen"], k)
        if len(cand) != len(G["cands"] or []):
            return "C05-dup: a candidate was handed to the survival twice"
        if len(G["post"]) != n:
            return "C05-size: population has %d members instead of %d" % (len(G["post"]), n)
    return None


def oracle_c06(cfg, obs):
    m = stale_cv(obs)
    if m:
        return "C06-stale-cv: " + m
    if cfg["alg"] == "DE":
        return None
    n = obs["pop_size"]
    for G in obs["gens"][1:]:
        allowed = set(G["pre"]) | set(G["infills"])
        if not set(G["post"]) <= allowed:
            return "C06-foreign: generation %d: a member is neither a previous member nor an offspring" % G["gen"]
        cands = G["cands"] if (cfg["alg"].startswith("GDE3") and G["cands"]) else G["pre"] + G["infills"]
        if not set(G["post"]) <= set(cands):
            return "C06-not-candidate: generation %d: a member did not pass the one-to-one comparison" % G["gen"]
        S = set(G["post"]); disc = [c for c in cands if c not in S]
        dS = {i: _d(obs, i) for i in cands}
        for s in G["post"]:
            Fs, _, fs, _ = dS[s]
            for d in disc:
                Fd, _, fd, _ = dS[d]
                if (not fs) and fd:
                    return "C06-infeasible-over-feasible: generation %d: infeasible %d survives while feasible %d is discarded" % (G["gen"], s, d)
                if fs and fd and pdom(Fd, Fs):
                    return "C06-dominated-survivor: generation %d: survivor %d is dominated by discarded %d" % (G["gen"], s, d)
        feas_c = [c for c in cands if dS[c][2]]
        nd = [c for c in feas_c if not any(pdom(dS[j][0], dS[c][0]) for j in feas_c if j != c)]
        if len(nd) <= n and not set(nd) <= S:
            return "C06-nd-lost: generation %d: %d feasible non-dominated candidates fit into pop_size=%d but %d were discarded" % (
                G["gen"], len(nd), n, len(set(nd) - S))
    return None


def oracle_c07(cfg, obs):
    m = stale_cv(obs)
    if m:
        return "C07-stale-cv: " + m
    n = obs["pop_size"]
    ga = cfg["alg"] in ("GA", "EA")
    size = None
    for G in obs["gens"]:
        n_off = n if not ga else (cfg["n_init"] if G["gen"] == 0 else cfg["n_off"])
        n_pop = n if not ga else (len(G["infills"]) if G["gen"] == 0 else min(n, size + len(G["infills"])))
        if len(G["infills"]) != n_off and not (ga and len(G["infills"]) < n_off):   # duplicate elimination may leave the GA sampling / mating short
            return "C07-noff: generation %d proposed %d offspring instead of %d" % (G["gen"], len(G["infills"]), n_off)
        if G["n_eval_gen"] != len(G["infills"]):
            return "C07-neval: generation %d consumed %d evaluations for %d offspring" % (G["gen"], G["n_eval_gen"], len(G["infills"]))
        if len(G["post"]) != n_pop:
            return "C07-size: population has %d members after generation %d, expected %d" % (len(G["post"]), G["gen"], n_pop)
        size = len(G["post"])
        if len(set(G["post"])) != len(G["post"]):
            return "C07-twice: an individual appears twice after generation %d" % G["gen"]
        if not G["provenance"]:
            return "C07-provenance: stored F/G of a member differ from the problem evaluated at its stored X (generation %d)" % G["gen"]
        if not G["stored_same"]:
            return "C07-altered: an evaluated individual was altered during generation %d" % G["gen"]
    return None


def oracle_c08(cfg, obs):
    m = stale_cv(obs)
    if m:
        return "C08-stale-cv: " + m
    for G in obs["gens"]:
        post = G["post"]; D = {i: _d(obs, i) for i in post}
        opt = G["opt"]
        if not set(opt) <= set(post) and cfg["alg"] != "NSDER":
            return "C08-foreign: reported optimum contains a solution that is not in the population (generation %d)" % G["gen"]
        Do = {i: _d(obs, i) for i in opt}
        any_feas = any(D[i][2] for i in post)
        if any_feas:
            if not all(Do[i][2] for i in opt):
                return "C08-infeasible-opt: generation %d reports an infeasible optimum although a member is feasible" % G["gen"]
            for o in opt:
                if any(D[j][2] and pdom(D[j][0], Do[o][0]) for j in post) or any(pdom(Do[p][0], Do[o][0]) for p in opt if p != o):
                    return "C08-dominated-opt: generation %d reports a dominated solution" % G["gen"]
            if cfg["alg"] != "NSDER":
                nd = {i for i in post if D[i][2] and not any(D[j][2] and pdom(D[j][0], D[i][0]) for j in post)}
                if cfg["alg"] == "DE":
                    best = min(post, key=lambda i: (D[i][1], D[i][0][0]))
                    if len(opt) != 1 or (D[opt[0]][1], D[opt[0]][0][0]) != (D[best][1], D[best][0][0]):
                        return "C08-DE: generation %d: optimum is not the single best member" % G["gen"]
                elif set(opt) != nd:
                    return "C08-incomplete: generation %d: optimum has %d members, the feasible non-dominated set has %d" % (G["gen"], len(set(opt)), len(nd))
        else:
            mn = min(D[i][1] for i in post)
            if len(opt) != 1 or Do[opt[0]][1] != mn:
                return "C08-nofeas: generation %d: nothing feasible but optimum is not the single least-violation member" % G["gen"]
    return None
