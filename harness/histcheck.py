from harness.core import *
from harness import hist


class HistCheck(Check):
    IMPORTS = hist.IMPORTS
    ISOLATE = True
    ALGS = ("DE", "NSDE", "GDE3", "GDE3MNN", "GDE32NN", "GDE3P", "NSDER")
    PARTS = ("ask", "tell", "opt")
    N_GEN = 4
    SHARD = 40
    QUICK_N = 96
    THOROUGH_N = 600
    CASE_TIMEOUT = 120
    ORACLES = ()

    def gen(self, n):
        for i in range(n):
            # every fourth case is one of the multi-feature scenarios, in turn
            c = hist.gen_scenario_case(self.rng, i // 4, self.ALGS, self.N_GEN) if i % 4 == 2 else None
            yield c if c is not None else hist.gen_hist_case(self.rng, algs=self.ALGS, n_gen=self.N_GEN)

    def run(self, case):
        return hist.run_history(case)

    def oracle(self, case, obs):
        for o in self.ORACLES:
            m = o(case, obs)
            if m:
                return m
        return None

    def coq(self, case, obs):
        return hist.history_term(case, obs, self.PARTS)

    def nontrivial(self, case, obs):
        return len(obs["gens"]) >= 2

    def classes(self, case, obs):
        out = [case["alg"], case["sel"], case["cx"], case["repair"], "ieq=%d" % case["n_ieq"]]
        if case["alg"] in ("NSDE", "GDE3"): out += [case["surv"], case["cf"]]
        if case.get("prime"): out.append("primed-by-other-problem")
        if case.get("scenario"): out.append("scenario-" + case["scenario"])
        feas = [obs["data"][str(i)]["feas"] for i in obs["gens"][-1]["post"]]
        out.append("final-all-feasible" if all(feas) else "final-none-feasible" if not any(feas) else "final-mixed")
        return out

    def explain(self, case, obs):
        out = []
        for g in range(len(obs["gens"])):
            for name, f in (("ask", hist.ask_term), ("tell", hist.tell_term), ("opt", hist.opt_term)):
                if name == "ask" and g == 0:
                    continue
                t = f(case, obs, g)
                if t is None:
                    continue
                try:
                    bad, _ = eval_cases(self.ID + "x", self.IMPORTS, [t])
                except Exception as e:
                    return "generation %d %s: %s" % (g, name, str(e)[-800:])
                if bad:
                    return "first disagreement: generation %d, %s step" % (g, name)
        return None
