"""The same values in other memory layouts: legitimate inputs for every function that accepts an ndarray."""
import numpy as np

LAYOUTS = ["C", "F", "colslice", "rowstride"]


def relayout(A, kind):
    A = np.asarray(A)
    if kind in (None, "C") or A.ndim != 2:
        return np.ascontiguousarray(A)
    if kind == "F":                      # e.g. np.array([f1, f2]).T
        return np.asfortranarray(A)
    if kind == "colslice":               # every other column of a wider array
        W = np.zeros((A.shape[0], 2 * A.shape[1]), dtype=A.dtype); W[:, ::2] = A
        return W[:, ::2]
    if kind == "rowstride":              # every other row of a longer array
        W = np.zeros((2 * A.shape[0], A.shape[1]), dtype=A.dtype); W[::2] = A
        return W[::2]
    raise ValueError(kind)


def pick_layout(rng, p=0.25):
    return rng.choice(LAYOUTS[1:]) if rng.random() < p else "C"
