"""What MANIFEST.json claims, per property (bin/mkmanifest turns this into MANIFEST.json)."""

NOTE_Q = ("Theorem is about the hand-written Gallina model in exact rational arithmetic (no axioms); the model's binary64 instance is "
          "compared bit-for-bit with /repo on every run; rounding/overflow are outside the theorem and covered by evaluated checks only.")
NOTE_ORD = ("Theorem is about the hand-written Gallina model for any number type whose comparison is a strict weak order (proved for Q without axioms); "
            "pymoo/NumPy dependencies enter as oracles whose contracts are validated per recorded call; tie to /repo = correspondence runs.")

CHECKS = {
    "C01": {"text": "Coq theorem over Q for the whole mating pipeline (selection -> mutation -> repair against the base vector -> crossover) and for DEM.do / DEX.do alone: any configuration, any in-box population, any draw stream in [0,1) => every trial vector is inside the box (zero-width ranges and bases on bounds included; base-in-box shown necessary by a refutation); + bit-exact correspondence of DifferentialVariant.do with the composed model, float box check on every offspring, PM as a validated oracle",
            "note": NOTE_Q, "technique": "Coq proof (composition of the C09-C12 models, nra) + vm_compute correspondence"},
    "C11": {"text": "Coq theorem over Q for all matrices, bounds, strategies and draw streams (coordinatewise contract of the four repairs, two-pass order modelled as written) + bit-exact correspondence of the binary64 instance with dem.py on generated and scripted-draw cases",
            "note": NOTE_Q, "technique": "Coq proof (induction over the flattened matrix, lra/nra) + vm_compute correspondence"},
    "C12": {"text": "Coq theorems for every number type, crossover kind, CR, shape and draw stream: coordinatewise inheritance, at least one mutant coordinate, CR=1 => trial = mutant, CR=0 => exactly one coordinate, exponential mask = circular block whose length is the number of leading draws below CR; + bit-exact correspondence of DEX.do / cross_binomial / cross_exp with recorded and boundary-scripted draws",
            "note": NOTE_ORD, "technique": "Coq proof (induction over draw stream and rows; mod arithmetic) + vm_compute correspondence"},
    "C10": {"text": "Coq theorems over Q for every parent tensor, F configuration, jitter and draw stream: V = X0 + ((0 + d1) + d2)... with d_k = Feff_k*(X_{2k-1}-X_{2k}), one F per mutant and pair inside [lo,hi], jitter factor within gamma/2 of 1 and centred, exact when F scalar and gamma None (no draws consumed); + bit-exact correspondence of DEM.de_mutation / DEM.do including the order of additions",
            "note": NOTE_Q, "technique": "Coq proof (structural induction over pairs, nra) + vm_compute correspondence"},
    "C02": {"text": "Coq theorems for any strict-weak-ordered number type (instantiated at Q without axioms): replacement rule = the three cases of the statement, slot k holds parent or own offspring and the offspring iff better and not a duplicate of a member / earlier offspring, size preserved, result is the slots stably sorted by (CV, F), no identity twice, and for every reachable state of a run (induction over generations) the best never gets worse; + exact correspondence of ImprovementReplacement.do (identities, ranks, masks) incl. huge/infinite objectives",
            "note": NOTE_ORD, "technique": "Coq proof (lexicographic strict weak order, insertion-sort invariants, induction over the run) + vm_compute correspondence"},
    "C09": {"text": "Coq theorems for every population size, parent count, rank assignment and choice-draw stream: if a selection returns P then rows have the documented layout, randomly drawn parents are pairwise distinct, differ from the target and the fixed best, indices are valid; ranked = permutation of a 'rand' row with best-ranked base and (better, worse) pairs; + exact correspondence of DES._do with recorded and collision-scripted draws",
            "note": NOTE_ORD + " Termination of the rejection loops is not claimed.", "technique": "Coq proof (loop invariant of the redraw loop, insertion-sort permutation/sortedness) + vm_compute correspondence"},
}

_PENDING = "check not built yet in this session (work in progress, see DESIGN.md section 7)"
NOT_APPLICABLE = {("C%02d" % i): _PENDING for i in range(1, 21) if ("C%02d" % i) not in CHECKS}
