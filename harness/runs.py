"""Plain (unrecorded) driving of algorithm objects, used by C17 / C18: generation-by-generation fingerprints."""
import hashlib, json, sys, os, pickle, subprocess
import numpy as np
from harness.core import VERIF, REPO
from harness import hist


def fingerprint_pop(pop):
    h = hashlib.sha256()
    for k in ("X", "F", "G"):
        a = pop.get(k)
        h.update(np.ascontiguousarray(np.asarray(a, dtype=float)).tobytes() if a is not None and a.dtype != object else b"-")
    return h.hexdigest()[:20]


def fingerprint(alg):
    pop = alg.pop
    h = hashlib.sha256()
    for k in ("X", "F", "G"):
        a = pop.get(k)
        h.update(np.ascontiguousarray(np.asarray(a, dtype=float)).tobytes() if a is not None and a.dtype != object else b"-")
    opt = alg.opt
    if opt is not None:
        h.update(np.ascontiguousarray(np.asarray(opt.get("X"), dtype=float)).tobytes())
    return h.hexdigest()[:20]


def external_eval(prob, infills, order_rng=None, batch=1):
    """evaluate the offspring outside the algorithm, one by one (or in small batches) in a shuffled order"""
    from pymoo.core.evaluator import Evaluator
    from pymoo.problems.static import StaticProblem
    X = infills.get("X"); n = len(X)
    order = list(range(n))
    if order_rng is not None:
        order_rng.shuffle(order)
    F = np.empty((n, prob.n_obj)); G = np.empty((n, prob.n_ieq_constr)) if prob.n_ieq_constr else None
    H = np.empty((n, prob.n_eq_constr)) if prob.n_eq_constr else None
    for s in range(0, n, batch):
        idx = order[s:s + batch]
        out = prob.evaluate(X[idx], return_as_dictionary=True)
        F[idx] = out["F"]
        if G is not None:
            G[idx] = out["G"]
        if H is not None:
            H[idx] = out["H"]
    kw = {"F": F}
    if G is not None: kw["G"] = G
    if H is not None: kw["H"] = H
    static = StaticProblem(prob, **kw)
    Evaluator().eval(static, infills)


def drive(alg, prob, n, ext=None):
    out = []
    for _ in range(n):
        if not alg.has_next():
            break
        inf = alg.ask()
        if inf is None:
            break
        if ext is None:
            alg.evaluator.eval(prob, inf)
        else:
            ext(prob, inf)
        alg.tell(infills=inf)
        out.append(fingerprint(alg))
    alg._last_pop_fp = fingerprint_pop(alg.pop) if alg.pop is not None else None
    return out


def fresh_run(cfg, n, default_termination=False):
    prob = hist.make_problem(cfg); alg = hist.make_algorithm(cfg)
    if default_termination:
        alg.setup(prob, seed=cfg["seed"], verbose=False)
    else:
        alg.setup(prob, seed=cfg["seed"], termination=("n_gen", cfg["n_gen"] + 1), verbose=False)
    return drive(alg, prob, n), alg, prob


def reference_in_new_process(cfg, n, default_termination=False):
    """the same run in a fresh interpreter: nothing was run earlier in that process"""
    code = ("import sys, json; sys.path[:0] = [%r, %r]\n"
            "import warnings; warnings.simplefilter('ignore')\n"
            "from harness import runs\n"
            "cfg = json.loads(sys.stdin.read())\n"
            "print('RESULT ' + json.dumps(runs.fresh_run(cfg, %d, %r)[0]))\n" % (VERIF, REPO, n, default_termination))
    env = dict(os.environ); env["PYTHONHASHSEED"] = "0"
    p = subprocess.run(["/venv/bin/python", "-W", "ignore", "-c", code], input=json.dumps(cfg), capture_output=True, text=True, timeout=300, env=env)
    for line in p.stdout.splitlines():
        if line.startswith("RESULT "):
            return json.loads(line[7:])
    raise RuntimeError("reference run failed: " + p.stderr[-1500:])


def resume_in_new_process(blob, rng_state, n):
    """unpickle an algorithm in a fresh interpreter, restore the saved generator state, continue for n generations"""
    import base64
    code = ("import sys, json, pickle, base64; sys.path[:0] = [%r, %r]\n"
            "import warnings; warnings.simplefilter('ignore')\n"
            "import numpy as np\n"
            "from harness import runs, hist\n"
            "d = pickle.loads(base64.b64decode(sys.stdin.read()))\n"
            "alg = pickle.loads(d['alg']); np.random.set_state(d['state'])\n"
            "print('RESULT ' + json.dumps(runs.drive(alg, alg.problem, %d)))\n" % (VERIF, REPO, n))
    payload = base64.b64encode(pickle.dumps({"alg": blob, "state": rng_state})).decode()
    env = dict(os.environ); env["PYTHONHASHSEED"] = "0"
    p = subprocess.run(["/venv/bin/python", "-W", "ignore", "-c", code], input=payload, capture_output=True, text=True, timeout=300, env=env)
    for line in p.stdout.splitlines():
        if line.startswith("RESULT "):
            return json.loads(line[7:])
    raise RuntimeError("resume failed: " + p.stderr[-1500:])
