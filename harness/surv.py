"""Shared harness for the survival operators (C03, C04, C15, C16): population generators, oracle recorders, runner, Coq terms."""
import numpy as np
from harness.core import *

METRICS = ["cd", "ce", "mnn", "2nn", "pcd"]


class Stub:
    pass


def make_problem(n_var, n_obj, n_ieq, n_eq):
    from pymoo.core.problem import Problem
    return Problem(n_var=n_var, n_obj=n_obj, n_ieq_constr=n_ieq, n_eq_constr=n_eq, xl=np.zeros(n_var), xu=np.ones(n_var))


def gen_pop_case(rng, crnc_bias=0.5, metrics=METRICS):
    n_obj = rng.choice([1, 2, 2, 3, 3, 4, 5])
    n_ieq = rng.choice([0, 0, 1, 2]); n_eq = rng.choice([0, 0, 0, 1, 2])
    n = rng.choice([1, 2, 3, 5, 8, 12, 16, 24])
    style = rng.choice(["grid", "grid", "cont", "dups", "chain", "onefront", "narrow"])
    F = []
    nb = [rng.choice([250.0, 1e3, 1e6]) for _ in range(n_obj)]; ns = [rng.choice([1e-3, 1e-4, 1e-6]) for _ in range(n_obj)]
    nm = [rng.random() < 0.6 for _ in range(n_obj)]
    if not any(nm): nm[0] = True
    for i in range(n):
        if style == "grid":
            F.append([float(rng.randint(0, 3)) for _ in range(n_obj)])
        elif style == "cont":
            F.append([rng.random() for _ in range(n_obj)])
        elif style == "dups":
            F.append(list(F[rng.randrange(len(F))]) if F and rng.random() < 0.5 else [float(rng.randint(0, 2)) for _ in range(n_obj)])
        elif style == "narrow":
            # objectives whose spread is tiny relative to their magnitude (costs around 1000 differing by thousandths)
            F.append([nb[j] + rng.randint(0, 4) * ns[j] if nm[j] else float(rng.randint(0, 3)) for j in range(n_obj)])
        elif style == "chain":
            F.append([float(i)] * n_obj)
        else:
            t = rng.random(); F.append([t, 1 - t] + [rng.random() for _ in range(n_obj - 2)] if n_obj >= 2 else [t])
    feasmode = rng.choice(["mixed", "mixed", "allfeas", "allinfeas"]) if (n_ieq + n_eq) else "unconstrained"
    G, H = [], []
    for i in range(n):
        if feasmode == "allfeas":
            G.append([-1.0] * n_ieq); H.append([0.0] * n_eq)
        elif feasmode == "allinfeas":
            g = [float(rng.randint(0, 2)) if style != "cont" else rng.uniform(-0.5, 2) for _ in range(n_ieq)]
            h = [float(rng.randint(-2, 2)) if style != "cont" else rng.uniform(-1, 1) for _ in range(n_eq)]
            if all(x <= 0 for x in g) and all(abs(x) <= 1e-4 for x in h):
                if n_ieq: g[0] = 1.0
                else: h[0] = 1.0
            G.append(g); H.append(h)
        else:
            G.append([float(rng.randint(-2, 2)) if style != "cont" else rng.uniform(-1, 1) for _ in range(n_ieq)])
            H.append([float(rng.choice([0, 0, 1, -1, 2])) if style != "cont" else rng.choice([0.0, rng.uniform(-1, 1)]) for _ in range(n_eq)])
    cls = "ConstrRankAndCrowding" if rng.random() < crnc_bias else "RankAndCrowding"
    cf = rng.choice(metrics)
    if cf == "pcd" and n_obj >= 3:
        cf = rng.choice(["cd", "ce", "mnn", "2nn"])     # compiled pcd with 3+ objectives: known finding, exercised by C13 in isolation
    r = rng.random()
    k = 1 if r < 0.1 else n if r < 0.2 else rng.randint(1, n)
    if rng.random() < 0.15:
        # the same population in other units: objectives and constraint values multiplied by powers of two (all comparisons are preserved exactly)
        kf = 2.0 ** rng.choice([-80, -40, 60]); kg = 2.0 ** rng.choice([-60, -20, 40])
        F = [[x * kf for x in r] for r in F]; G = [[x * kg for x in r] for r in G]; H = [[x * kg for x in r] for r in H]
        style = style + "-rescaled"
    elif F and len(F[0]) >= 2 and rng.random() < 0.12:
        # objectives in very different units: every column multiplied by its own power of two (column-wise comparisons are preserved exactly)
        ks = [rng.choice([70, 64, 0, -60]) for _ in F[0]]
        if len(set(ks)) == 1: ks[0] = 70 if ks[0] != 70 else 0
        F = [[x * 2.0 ** k for x, k in zip(r, ks)] for r in F]
        style = style + "-mixedunits"
    elif F and rng.random() < 0.12:
        # objectives that are negative for every individual (a maximisation objective written as -f), or that span zero
        for j in range(len(F[0])):
            if rng.random() < 0.6:
                c = max(r[j] for r in F) + rng.choice([1.0, 0.5, 8.0]) if rng.random() < 0.7 else (max(r[j] for r in F) + min(r[j] for r in F)) / 2
                for r in F:
                    r[j] = r[j] - c
        style = style + "-negative"
    case = {"F": F, "G": G, "H": H, "n_survive": k, "cls": cls, "cf": cf, "style": style, "feasmode": feasmode, "seed": rng.randrange(2 ** 31)}
    if rng.random() < 0.25:
        case["prime"] = rng.choice(["other", "same", "samefull"])     # the operator object has served another (all-feasible) / the same population before
    return case


class OracleRec:
    """records what the survivals obtain from pymoo / the crowding function, in call order"""

    def __init__(self, survival):
        self.events = []
        self.survival = survival
        self._undo = []

    def __enter__(self):
        import pymoo.core.survival as pcs
        import pymoode.survival.rank_and_crowding.rnc as rnc
        ev = self.events
        orig_split = pcs.split_by_feasibility

        def split(pop, *a, **k):
            out = orig_split(pop, *a, **k)
            ev.append(("split", [int(i) for i in out[0]], [int(i) for i in out[1]]))
            return out
        for mod in (pcs, rnc):
            self._undo.append((mod, "split_by_feasibility", mod.split_by_feasibility))
            mod.split_by_feasibility = split
        orig_sort = rnc.randomized_argsort

        def rsort(A, *a, **k):
            I = orig_sort(A, *a, **k)
            ev.append(("sort", k.get("order", "ascending") == "descending", [int(i) for i in I], [float(x) for x in np.asarray(A, dtype=float)]))
            return I
        self._undo.append((rnc, "randomized_argsort", orig_sort))
        rnc.randomized_argsort = rsort
        # class-level patches: every NonDominatedSorting / CrowdingDiversity instance is recorded, whatever attribute holds it
        from pymoo.util.nds.non_dominated_sorting import NonDominatedSorting
        from pymoode.survival.rank_and_crowding.metrics import CrowdingDiversity
        orig_nds = NonDominatedSorting.do

        def nds_do(obj, F, *a, **k):
            fronts = orig_nds(obj, F, *a, **k)
            if k.get("n_stop_if_ranked") is not None and not k.get("return_rank") and not k.get("only_non_dominated_front"):
                ev.append(("nds", int(k.get("n_stop_if_ranked")), [[int(i) for i in fr] for fr in fronts], np.asarray(F, dtype=float).tolist()))
            return fronts
        NonDominatedSorting.do = nds_do
        self._undo.append((NonDominatedSorting, "do", orig_nds))
        orig_cf = CrowdingDiversity.do

        buf = {"log": [], "argpart": []}
        orig_log2, orig_argpart = np.log2, np.argpartition

        def log2(x, *a, **k):
            with np.errstate(all="ignore"):
                y = orig_log2(x, *a, **k)
            buf["log"] += list(zip(np.asarray(x, dtype=float).ravel().tolist(), np.asarray(y, dtype=float).ravel().tolist()))
            return y

        def argpartition(a, kth, *args, **kw):
            r = orig_argpart(a, kth, *args, **kw)
            try:
                ks = list(kth); buf["argpart"].append(np.asarray(r)[:, ks[0]:ks[-1] + 1].astype(int).tolist())
            except Exception:
                pass
            return r
        np.log2, np.argpartition = log2, argpartition
        self._undo.append((np, "log2", orig_log2)); self._undo.append((np, "argpartition", orig_argpart))

        def cf_do(obj, F, n_remove=0, **k):
            buf["log"] = []; buf["argpart"] = []
            Fin = np.array(F, dtype=float).copy()
            d = orig_cf(obj, F, n_remove=n_remove, **k)
            ev.append(("crowd", int(n_remove), [float(x) for x in np.asarray(d, dtype=float)], Fin.tolist(), list(buf["log"]), list(buf["argpart"])))
            return d
        CrowdingDiversity.do = cf_do
        self._undo.append((CrowdingDiversity, "do", orig_cf))
        return self

    def __exit__(self, *a):
        for obj, name, orig in reversed(self._undo):
            if orig is None:
                try:
                    delattr(obj, name)
                except AttributeError:
                    pass
            else:
                setattr(obj, name, orig)
        return False


def build_pop(case):
    from pymoo.core.population import Population
    F = np.array(case["F"], dtype=float); n = len(F)
    n_ieq = len(case["G"][0]) if case["G"] else 0; n_eq = len(case["H"][0]) if case["H"] else 0
    X = np.arange(n, dtype=float).reshape(-1, 1) / max(n, 1)
    kw = ["X", X, "F", F]
    if n_ieq: kw += ["G", np.array(case["G"], dtype=float)]
    if n_eq: kw += ["H", np.array(case["H"], dtype=float)]
    pop = Population.new(*kw)
    return pop, make_problem(1, F.shape[1], n_ieq, n_eq), n_ieq, n_eq


def run_survival(case):
    from pymoode.survival import RankAndCrowding, ConstrRankAndCrowding
    pop, prob, n_ieq, n_eq = build_pop(case)
    n = len(pop)
    ids = {id(ind): i for i, ind in enumerate(pop)}
    snap = [pop.get(k).copy() for k in ("X", "F", "G", "H")]
    CV = pop.get("CV")[:, 0].astype(float); feas = pop.get("feasible")[:, 0].astype(bool)
    surv_op = (ConstrRankAndCrowding if case["cls"] == "ConstrRankAndCrowding" else RankAndCrowding)(crowding_func=case["cf"])
    if case.get("prime"):
        # an algorithm keeps ONE survival object for all generations: it has served another population before
        pc = dict(case); pc["F"] = [list(r) for r in reversed(case["F"])][: max(1, n - 1)]
        pc["G"] = [[-1.0] * n_ieq for _ in pc["F"]] if n_ieq else case["G"]
        pc["H"] = [[0.0] * n_eq for _ in pc["F"]] if n_eq else case["H"]
        if case["prime"] in ("same", "samefull"):
            pc = case
        pop0, prob0, _, _ = build_pop(pc)
        np.random.seed(case["seed"] + 1)
        # "samefull": the same individuals were all kept a generation ago (nothing had to be removed then)
        surv_op.do(prob0, pop0, n_survive=len(pop0) if case["prime"] == "samefull" else max(1, min(len(pop0), case["n_survive"] // 2 + 1)))
    np.random.seed(case["seed"])
    with OracleRec(surv_op) as rec:
        out = surv_op.do(prob, pop, n_survive=case["n_survive"])
    frame = all(np.array_equal(a, pop.get(k)) for a, k in zip(snap, ("X", "F", "G", "H")))
    G = pop.get("G") if n_ieq else np.zeros((n, 0)); H = pop.get("H") if n_eq else np.zeros((n, 0))
    C = np.column_stack((np.maximum(G, 0), np.absolute(H)))
    return {"surv": [ids.get(id(s), -1) for s in out], "CV": enc(CV), "feas": feas.tolist(), "C": enc(C) if C.size else [[] for _ in range(n)],
            "rank": [ind.get("rank") for ind in pop], "crowding": [None if ind.get("crowding") is None else float(ind.get("crowding")).hex() for ind in pop],
            "cv_rank": [ind.get("cv_rank") for ind in pop], "frame": bool(frame), "constr": bool(n_ieq + n_eq > 0),
            "crowd_calls": [{"F": enc(np.array(e[3], dtype=float).reshape(len(e[3]), -1)), "n_remove": e[1], "d": [float(v).hex() for v in e[2]],
                             "logs": [[float(a).hex(), float(b).hex()] for a, b in e[4]], "argpart": e[5]} for e in rec.events if e[0] == "crowd"],
            "events": [[e[0]] + [x if not isinstance(x, list) or not x or not isinstance(x[0], float) else [float(v).hex() for v in x] for x in e[1:3]] for e in rec.events]}


def mind_term(i, f, cv, feas, c):
    return "(@Build_mind Fn %d %s %s %s %s)" % (i, cfl(f), cfs(cv), cbool(feas), cfl(c))


def pop_term(case, obs):
    CV = decarr(obs["CV"]); C = [dec(r) for r in obs["C"]]
    return "[" + ";\n    ".join(mind_term(i, case["F"][i], CV[i], obs["feas"][i], C[i]) for i in range(len(case["F"]))) + "]"


def oevents_term(events):
    out = []
    for e in events:
        if e[0] == "split":
            out.append("@OSplit Fn %s %s" % (cnl(e[1]), cnl(e[2])))
        elif e[0] == "nds":
            out.append("@ONds Fn %d %s" % (e[1], cnmat(e[2])))
        elif e[0] == "crowd":
            out.append("@OCrowd Fn %d %s" % (e[1], cfl([float.fromhex(h) for h in e[2]])))
        elif e[0] == "sort":
            out.append("@OSort Fn %s %s" % (cbool(e[1]), cnl(e[2])))
    return "[" + ";\n    ".join(out) + "]"


def survival_term(case, obs):
    n = len(case["F"])
    exp_attrs = "[" + "; ".join("(%d, %d, %s)" % (i, obs["rank"][i], cfs(float.fromhex(obs["crowding"][i])))
                                for i in range(n) if obs["rank"][i] is not None and obs["crowding"][i] is not None) + "]"
    exp_cvr = "[" + "; ".join("(%d, %d)" % (i, obs["cv_rank"][i]) for i in range(n) if obs["cv_rank"][i] is not None) + "]"
    if -1 in obs["surv"]:
        return "false"
    P, E, c, k = pop_term(case, obs), oevents_term(obs["events"]), cbool(obs["constr"]), case["n_survive"]
    if case["cls"] == "RankAndCrowding":
        return ("match rnc_survival (N:=Fn) %s %s %d %s with\n  | Ok ((s, a), rest) => no_more rest && nlist_same s %s && attrs_agree a %s\n  | Err _ => false end" % (
            c, P, k, E, cnl(obs["surv"]), exp_attrs))
    return ("match crnc_survival (N:=Fn) %s %s %d %s with\n  | Ok ((s, a, cvr), rest) => no_more rest && nlist_same s %s && attrs_agree a %s && pairs_agree cvr %s\n  | Err _ => false end" % (
        c, P, k, E, cnl(obs["surv"]), exp_attrs, exp_cvr))


# ---- independent oracles ----
def pdom(a, b):
    return bool(np.all(a <= b) and np.any(a < b))


def layers(F):
    n = len(F); rem = set(range(n)); lay = [-1] * n; k = 0
    while rem:
        fr = [i for i in rem if not any(pdom(F[j], F[i]) for j in rem if j != i)]
        for i in fr:
            lay[i] = k
        rem -= set(fr); k += 1
    return lay


def oracle_c03(case, obs):
    n = len(case["F"]); k = case["n_survive"]; S = obs["surv"]
    if not obs["frame"]:
        return "C03-frame: X, F, G or H of some individual changed"
    if -1 in S:
        return "C03-copy: a survivor is not one of the input objects"
    if len(S) != min(k, n):
        return "C03-count: %d survivors for n_survive=%d of %d (%s, %s)" % (len(S), k, n, case["cls"], case["cf"])
    if len(set(S)) != len(S):
        return "C03-dup: a survivor appears twice: %s" % S
    return None


def oracle_c04(case, obs):
    """only for RankAndCrowding"""
    n = len(case["F"]); S = obs["surv"]; Sset = set(S); D = [i for i in range(n) if i not in Sset]
    F = np.array(case["F"], dtype=float); CV = decarr(obs["CV"]); feas = obs["feas"]
    if any(not feas[s] for s in S) and any(feas[d] for d in D):
        return "C04-feasfirst: an infeasible individual survives while a feasible one is discarded"
    fi = [i for i in range(n) if feas[i]]
    lay = [-1] * n
    for i, l in zip(fi, layers(F[fi]) if fi else []):
        lay[i] = l
    for s in S:
        for d in D:
            if feas[s] and feas[d] and lay[s] > lay[d]:
                return "C04-rank: survivor %d (front %d) kept while %d (front %d) discarded" % (s, lay[s], d, lay[d])
    for s in S:
        if feas[s] and obs["rank"][s] != lay[s]:
            return "C04-rankattr: feasible survivor %d has rank %r, true front index %d" % (s, obs["rank"][s], lay[s])
    for s in S:
        for d in D:
            if (not feas[s]) and (not feas[d]) and CV[s] > CV[d]:
                return "C04-infeasCV: infeasible %d (CV %r) kept, %d (CV %r) dropped" % (s, CV[s], d, CV[d])
    return None


def oracle_c16(case, obs):
    """only for ConstrRankAndCrowding"""
    n = len(case["F"]); S = obs["surv"]; Sset = set(S); D = [i for i in range(n) if i not in Sset]
    F = np.array(case["F"], dtype=float); CV = decarr(obs["CV"]); feas = obs["feas"]
    if any(not feas[s] for s in S) and any(feas[d] for d in D):
        return "C16-feasfirst: an infeasible individual survives while a feasible one is discarded"
    fi = [i for i in range(n) if feas[i]]
    lay = [-1] * n
    for i, l in zip(fi, layers(F[fi]) if fi else []):
        lay[i] = l
    for s in S:
        for d in D:
            if feas[s] and feas[d] and lay[s] > lay[d]:
                return "C16-feasible-as-rnc: feasible survivor %d (front %d) kept while %d (front %d) discarded" % (s, lay[s], d, lay[d])
    ii = [i for i in range(n) if not feas[i]]
    if ii and obs["constr"]:
        C = np.array([dec(obs["C"][i]) for i in ii], dtype=float).reshape(len(ii), -1)
        vl = dict(zip(ii, layers(C)))
        for s in S:
            for d in D:
                if (not feas[s]) and (not feas[d]):
                    if vl[s] > vl[d]:
                        return "C16-vfront: infeasible %d (violation front %d) kept, %d (front %d) dropped" % (s, vl[s], d, vl[d])
                    if vl[s] == vl[d] and CV[s] > CV[d]:
                        return "C16-cut: in the cut violation front, %d (CV %r) kept and %d (CV %r) dropped" % (s, CV[s], d, CV[d])
    return None
